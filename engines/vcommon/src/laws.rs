//! Order / equality / hash laws over a finite value set: all ordered triples.

use std::cmp::Ordering;
use std::collections::hash_map::DefaultHasher;
use std::collections::{BTreeSet, HashSet};
use std::fmt::Debug;
use std::hash::{Hash, Hasher};

pub fn hash_of<T: Hash>(v: &T) -> u64 {
    // DefaultHasher::new() uses fixed keys: deterministic across runs
    let mut h = DefaultHasher::new();
    v.hash(&mut h);
    h.finish()
}

pub struct LawStats {
    pub triples: u64,
    pub pairs: u64,
    pub equal_pairs: u64,
    pub distinct_classes: u64,
}

/// Checks every law on every ordered pair / triple of `vals`. `fail(law, description)`
/// is called for each violated instance (at most a few per law).
pub fn check_laws<T>(vals: &[T], mut fail: impl FnMut(&str, String)) -> LawStats
where
    T: Ord + Eq + Hash + Clone + Debug,
{
    let n = vals.len();
    let mut stats = LawStats { triples: 0, pairs: 0, equal_pairs: 0, distinct_classes: 0 };
    let mut budget = std::collections::BTreeMap::<String, u32>::new();
    let mut report = |law: &str, d: String| {
        let c = budget.entry(law.to_string()).or_insert(0);
        *c += 1;
        if *c <= 2 {
            fail(law, d);
        }
    };
    for a in vals {
        if !(a == a) {
            report("reflexive-eq", format!("{:?} != itself", a));
        }
        if a.cmp(a) != Ordering::Equal {
            report("reflexive-cmp", format!("cmp({:?}, itself) != Equal", a));
        }
        if a.clone() != *a {
            report("clone-eq", format!("clone of {:?} differs", a));
        }
    }
    for i in 0..n {
        for j in 0..n {
            let (a, b) = (&vals[i], &vals[j]);
            stats.pairs += 1;
            let c = a.cmp(b);
            let e = a == b;
            if e {
                stats.equal_pairs += 1;
            }
            if e != (c == Ordering::Equal) {
                report("eq-iff-cmp-equal", format!("a={:?} b={:?}: a==b is {} but cmp is {:?}", a, b, e, c));
            }
            if e != (b == a) {
                report("eq-symmetric", format!("a={:?} b={:?}", a, b));
            }
            if (a != b) == e {
                report("ne-consistent", format!("a={:?} b={:?}", a, b));
            }
            if b.cmp(a) != c.reverse() {
                report("antisymmetric", format!("a={:?} b={:?}: cmp(a,b)={:?} cmp(b,a)={:?}", a, b, c, b.cmp(a)));
            }
            if a.partial_cmp(b) != Some(c) {
                report("partial-cmp-agrees", format!("a={:?} b={:?}: partial_cmp={:?} cmp={:?}", a, b, a.partial_cmp(b), c));
            }
            if (a < b) != (c == Ordering::Less)
                || (a <= b) != (c != Ordering::Greater)
                || (a > b) != (c == Ordering::Greater)
                || (a >= b) != (c != Ordering::Less)
            {
                report("operators-agree", format!("a={:?} b={:?}: cmp={:?} but <,<=,>,>= = {},{},{},{}", a, b, c, a < b, a <= b, a > b, a >= b));
            }
            // the provided operations of Ord (a type may override them) agree with cmp
            let (hi, lo) = if c == Ordering::Greater { (a, b) } else { (b, a) };
            let (mx, mn) = (a.clone().max(b.clone()), a.clone().min(b.clone()));
            if mx.cmp(hi) != Ordering::Equal || mn.cmp(lo) != Ordering::Equal || std::cmp::max(a, b).cmp(hi) != Ordering::Equal || std::cmp::min(a, b).cmp(lo) != Ordering::Equal {
                report("max-min-agree-with-cmp", format!("a={:?} b={:?}: cmp={:?} but max={:?} min={:?}", a, b, c, mx, mn));
            }
            if e && hash_of(a) != hash_of(b) {
                report("eq-implies-hash-eq", format!("a={:?} b={:?} equal but hash differently", a, b));
            }
        }
    }
    for i in 0..n {
        for j in 0..n {
            let ab = vals[i].cmp(&vals[j]);
            for k in 0..n {
                stats.triples += 1;
                let bc = vals[j].cmp(&vals[k]);
                let ac = vals[i].cmp(&vals[k]);
                if ab != Ordering::Greater && bc != Ordering::Greater {
                    // a <= b <= c  =>  a <= c, and strict if either is strict
                    let want_strict = ab == Ordering::Less || bc == Ordering::Less;
                    if ac == Ordering::Greater || (want_strict && ac != Ordering::Less) || (!want_strict && ac != Ordering::Equal) {
                        report("transitive", format!("a={:?} b={:?} c={:?}: {:?},{:?} but a?c={:?}", vals[i], vals[j], vals[k], ab, bc, ac));
                    }
                }
            }
        }
    }
    // containers: every value is found again
    let bt: BTreeSet<T> = vals.iter().cloned().collect();
    let hs: HashSet<T> = vals.iter().cloned().collect();
    for v in vals {
        if !bt.contains(v) {
            report("btreeset-finds", format!("{:?} not found in BTreeSet after insertion", v));
        }
        if !hs.contains(v) {
            report("hashset-finds", format!("{:?} not found in HashSet after insertion", v));
        }
    }
    if bt.len() != hs.len() {
        report("set-sizes-agree", format!("BTreeSet has {} classes, HashSet {}", bt.len(), hs.len()));
    }
    // sorted order of the BTreeSet is strictly increasing
    let sorted: Vec<&T> = bt.iter().collect();
    for w in sorted.windows(2) {
        if w[0].cmp(w[1]) != Ordering::Less {
            report("btreeset-sorted", format!("{:?} !< {:?}", w[0], w[1]));
        }
    }
    stats.distinct_classes = bt.len() as u64;
    stats
}
