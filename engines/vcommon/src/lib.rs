//! Shared plumbing for the /verif engines: argument parsing, the result record every
//! engine hands back to `./check`, violation signatures, and small enumeration helpers.
//!
//! An engine never decides exit codes or known findings; it reports *what it explored*
//! (counters measured while running) and *every violating case with a signature*. The
//! Python driver turns that into evidence, replay files and the exit status.

use serde_json::{json, Map, Value};
use std::collections::{BTreeMap, BTreeSet};
use std::time::Instant;

pub mod cmodel;
pub mod enumerate;
pub mod laws;

#[derive(Debug, Clone, Copy, PartialEq, Eq)]
pub enum Tier {
    Quick,
    Thorough,
}

impl Tier {
    pub fn is_thorough(self) -> bool {
        self == Tier::Thorough
    }
    pub fn pick<T>(self, quick: T, thorough: T) -> T {
        match self {
            Tier::Quick => quick,
            Tier::Thorough => thorough,
        }
    }
}

#[derive(Debug, Clone)]
pub struct Args {
    pub property: String,
    pub tier: Tier,
    pub out: String,
    pub replay: Option<String>,
    pub extra: Vec<String>,
}

impl Args {
    /// `<bin> <property> --tier quick|thorough --out FILE [--replay FILE] [extra...]`
    pub fn parse() -> Args {
        let mut it = std::env::args().skip(1);
        let property = it.next().expect("usage: <bin> <property> --tier T --out FILE");
        let mut tier = Tier::Quick;
        let mut out = String::from("/dev/stdout");
        let mut replay = None;
        let mut extra = vec![];
        while let Some(a) = it.next() {
            match a.as_str() {
                "--tier" => {
                    tier = match it.next().as_deref() {
                        Some("quick") => Tier::Quick,
                        Some("thorough") => Tier::Thorough,
                        other => panic!("bad tier {:?}", other),
                    }
                }
                "--out" => out = it.next().expect("--out FILE"),
                "--replay" => replay = Some(it.next().expect("--replay FILE")),
                _ => extra.push(a),
            }
        }
        Args {
            property,
            tier,
            out,
            replay,
            extra,
        }
    }
}

#[derive(Debug, Clone)]
pub struct Violation {
    /// Names the failing input class; known findings are matched on this string.
    pub signature: String,
    /// One line for humans.
    pub summary: String,
    /// Everything needed to re-run exactly this case (`--replay`).
    pub case: Value,
}

/// What one engine run covered. All counters are incremented while exploring.
pub struct Report {
    pub property: String,
    pub level: &'static str,
    started: Instant,
    /// executions of the implementation
    pub evaluations: u64,
    /// distinct cases (states of the enumerated space)
    pub states: u64,
    /// enumeration steps taken to reach them (grammar productions / extension steps)
    pub transitions: u64,
    /// cases that are non-trivial by `rule`
    pub nontrivial: u64,
    pub rule: String,
    pub exhaustive: bool,
    pub bounds: Map<String, Value>,
    /// histogram of distinct observed outcomes (vacuity guard)
    pub outcomes: BTreeMap<String, u64>,
    pub samples: Vec<Value>,
    pub assumptions: Vec<String>,
    pub extra: Map<String, Value>,
    pub caps_hit: Vec<String>,
    violations: Vec<Violation>,
    violation_counts: BTreeMap<String, u64>,
    seen_sample_kinds: BTreeSet<String>,
}

const MAX_CASES_PER_SIGNATURE: u64 = 3;
const MAX_SIGNATURES: usize = 200;

impl Report {
    pub fn new(property: &str, level: &'static str) -> Report {
        Report {
            property: property.to_string(),
            level,
            started: Instant::now(),
            evaluations: 0,
            states: 0,
            transitions: 0,
            nontrivial: 0,
            rule: String::new(),
            exhaustive: true,
            bounds: Map::new(),
            outcomes: BTreeMap::new(),
            samples: vec![],
            assumptions: vec![],
            extra: Map::new(),
            caps_hit: vec![],
            violations: vec![],
            violation_counts: BTreeMap::new(),
            seen_sample_kinds: BTreeSet::new(),
        }
    }

    pub fn outcome(&mut self, key: &str) {
        *self.outcomes.entry(key.to_string()).or_insert(0) += 1;
    }

    pub fn outcome_n(&mut self, key: &str, n: u64) {
        *self.outcomes.entry(key.to_string()).or_insert(0) += n;
    }

    /// Keep one sample per `kind` (so samples show the variety of what was explored).
    pub fn sample(&mut self, kind: &str, v: Value) {
        if self.samples.len() < 40 && self.seen_sample_kinds.insert(kind.to_string()) {
            self.samples.push(json!({"kind": kind, "case": v}));
        }
    }

    pub fn bound(&mut self, k: &str, v: impl Into<Value>) {
        self.bounds.insert(k.to_string(), v.into());
    }

    pub fn violation(&mut self, signature: impl Into<String>, summary: impl Into<String>, case: Value) {
        let signature = signature.into();
        let c = self.violation_counts.entry(signature.clone()).or_insert(0);
        *c += 1;
        if *c <= MAX_CASES_PER_SIGNATURE && self.violation_counts.len() <= MAX_SIGNATURES {
            self.violations.push(Violation {
                signature,
                summary: summary.into(),
                case,
            });
        }
    }

    pub fn violation_total(&self) -> u64 {
        self.violation_counts.values().sum()
    }

    pub fn merge(&mut self, other: Report) {
        self.evaluations += other.evaluations;
        self.states += other.states;
        self.transitions += other.transitions;
        self.nontrivial += other.nontrivial;
        self.exhaustive &= other.exhaustive;
        for (k, v) in other.outcomes {
            *self.outcomes.entry(k).or_insert(0) += v;
        }
        for s in other.samples {
            let kind = s["kind"].as_str().unwrap_or("").to_string();
            if self.samples.len() < 40 && self.seen_sample_kinds.insert(kind) {
                self.samples.push(s);
            }
        }
        for (k, v) in other.bounds {
            self.bounds.insert(k, v);
        }
        for (k, v) in other.extra {
            self.extra.insert(k, v);
        }
        for a in other.assumptions {
            if !self.assumptions.contains(&a) {
                self.assumptions.push(a);
            }
        }
        self.caps_hit.extend(other.caps_hit);
        for v in other.violations {
            let have = self
                .violations
                .iter()
                .filter(|x| x.signature == v.signature)
                .count() as u64;
            if have < MAX_CASES_PER_SIGNATURE && self.violations.len() < MAX_SIGNATURES * 3 {
                self.violations.push(v);
            }
        }
        for (k, n) in other.violation_counts {
            *self.violation_counts.entry(k).or_insert(0) += n;
        }
    }

    pub fn to_json(&self) -> Value {
        let mut counts = Map::new();
        for (k, v) in &self.violation_counts {
            counts.insert(k.clone(), json!(v));
        }
        json!({
            "property_id": self.property,
            "level": self.level,
            "wall_s": self.started.elapsed().as_secs_f64(),
            "evaluations": self.evaluations,
            "states": self.states,
            "transitions": self.transitions,
            "distinct_nontrivial": self.nontrivial,
            "rule": self.rule,
            "exhaustive": self.exhaustive && self.caps_hit.is_empty(),
            "bounds": self.bounds,
            "distinct_outcomes": self.outcomes.len(),
            "outcomes": self.outcomes,
            "samples": self.samples,
            "assumptions": self.assumptions,
            "extra": self.extra,
            "caps_hit": self.caps_hit,
            "violations": self.violations.iter().map(|v| json!({
                "signature": v.signature, "summary": v.summary, "case": v.case,
            })).collect::<Vec<_>>(),
            "violation_counts": counts,
        })
    }

    pub fn write(&self, path: &str) {
        let text = serde_json::to_string_pretty(&self.to_json()).unwrap();
        if path == "/dev/stdout" {
            println!("{}", text);
        } else {
            std::fs::write(path, text).expect("write result");
        }
    }
}

/// Run `f`, turning a panic into `Err(message)`; silences the default panic hook while
/// inside so rejection-heavy sweeps do not spam stderr.
thread_local! {
    static CATCH_DEPTH: std::cell::Cell<usize> = std::cell::Cell::new(0);
}

pub fn catch<T>(f: impl FnOnce() -> T) -> Result<T, String> {
    CATCH_DEPTH.with(|d| d.set(d.get() + 1));
    let res = std::panic::catch_unwind(std::panic::AssertUnwindSafe(f));
    CATCH_DEPTH.with(|d| d.set(d.get() - 1));
    match res {
        Ok(v) => Ok(v),
        Err(e) => Err(if let Some(s) = e.downcast_ref::<&str>() {
            s.to_string()
        } else if let Some(s) = e.downcast_ref::<String>() {
            s.clone()
        } else {
            "panic".to_string()
        }),
    }
}

/// panics of the subject inside `catch` are data and stay silent; a panic anywhere else is the
/// harness's own and is reported (the process then exits non-zero: a machinery failure)
pub fn quiet_panics() {
    std::panic::set_hook(Box::new(|info| {
        if CATCH_DEPTH.with(|d| d.get()) == 0 {
            eprintln!("HARNESS PANIC (outside vcommon::catch): {}", info);
        }
    }));
}

pub fn load_replay(path: &str) -> Value {
    let text = std::fs::read_to_string(path).expect("read replay file");
    let v: Value = serde_json::from_str(&text).expect("parse replay file");
    v
}
