//! Tiny exhaustive enumerators.

/// All strings over `alphabet` (each element a &str, so multi-byte symbols are fine) of
/// length 0..=max_len, in length-then-lexicographic order. Calls `f(symbols_indices)`.
pub fn for_each_word(alphabet_len: usize, max_len: usize, mut f: impl FnMut(&[usize])) {
    let mut word: Vec<usize> = vec![];
    for len in 0..=max_len {
        word.clear();
        word.resize(len, 0);
        loop {
            f(&word);
            // increment
            let mut i = len;
            loop {
                if i == 0 {
                    break;
                }
                i -= 1;
                word[i] += 1;
                if word[i] < alphabet_len {
                    break;
                }
                word[i] = 0;
                if i == 0 {
                    i = usize::MAX;
                    break;
                }
            }
            if len == 0 || i == usize::MAX {
                break;
            }
        }
    }
}

/// Number of words of length 0..=max_len.
pub fn word_count(alphabet_len: usize, max_len: usize) -> u64 {
    let mut n = 0u64;
    let mut p = 1u64;
    for _ in 0..=max_len {
        n += p;
        p *= alphabet_len as u64;
    }
    n
}

/// The `idx`-th word of exactly `len` symbols (mixed radix, most significant first).
pub fn nth_word(alphabet_len: usize, len: usize, mut idx: u64, out: &mut Vec<usize>) {
    out.clear();
    out.resize(len, 0);
    for i in (0..len).rev() {
        out[i] = (idx % alphabet_len as u64) as usize;
        idx /= alphabet_len as u64;
    }
}

/// Cartesian product over index ranges: calls f with one index per dimension.
pub fn for_each_product(dims: &[usize], mut f: impl FnMut(&[usize])) {
    if dims.iter().any(|&d| d == 0) {
        return;
    }
    let mut idx = vec![0usize; dims.len()];
    loop {
        f(&idx);
        let mut i = dims.len();
        loop {
            if i == 0 {
                return;
            }
            i -= 1;
            idx[i] += 1;
            if idx[i] < dims[i] {
                break;
            }
            idx[i] = 0;
        }
    }
}

/// All permutations of 0..n (Heap's algorithm, deterministic order).
pub fn permutations(n: usize) -> Vec<Vec<usize>> {
    fn rec(k: usize, a: &mut Vec<usize>, out: &mut Vec<Vec<usize>>) {
        if k <= 1 {
            out.push(a.clone());
            return;
        }
        for i in 0..k {
            rec(k - 1, a, out);
            if k % 2 == 0 {
                a.swap(i, k - 1);
            } else {
                a.swap(0, k - 1);
            }
        }
    }
    let mut a: Vec<usize> = (0..n).collect();
    let mut out = vec![];
    rec(n, &mut a, &mut out);
    out.sort();
    out.dedup();
    out
}

#[cfg(test)]
mod test {
    use super::*;
    #[test]
    fn words() {
        let mut n = 0;
        for_each_word(3, 3, |_| n += 1);
        assert_eq!(n, 1 + 3 + 9 + 27);
        assert_eq!(word_count(3, 3), 40);
        assert_eq!(permutations(3).len(), 6);
        let mut m = 0;
        for_each_product(&[2, 3, 4], |_| m += 1);
        assert_eq!(m, 24);
    }
}
