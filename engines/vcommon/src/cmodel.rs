//! Reference models of Conjure spellings, written independently of the implementation
//! (no dependency on any /repo crate, base64, chrono or uuid).

pub fn base64(data: &[u8]) -> String {
    const T: &[u8; 64] = b"ABCDEFGHIJKLMNOPQRSTUVWXYZabcdefghijklmnopqrstuvwxyz0123456789+/";
    let mut out = String::new();
    for chunk in data.chunks(3) {
        let b = [chunk[0], *chunk.get(1).unwrap_or(&0), *chunk.get(2).unwrap_or(&0)];
        let n = ((b[0] as u32) << 16) | ((b[1] as u32) << 8) | b[2] as u32;
        out.push(T[(n >> 18) as usize & 63] as char);
        out.push(T[(n >> 12) as usize & 63] as char);
        out.push(if chunk.len() > 1 { T[(n >> 6) as usize & 63] as char } else { '=' });
        out.push(if chunk.len() > 2 { T[n as usize & 63] as char } else { '=' });
    }
    out
}

pub fn uuid(v: u128) -> String {
    let h = format!("{:032x}", v);
    format!("{}-{}-{}-{}-{}", &h[0..8], &h[8..12], &h[12..16], &h[16..20], &h[20..32])
}

pub fn decimal(mut v: i128) -> String {
    if v == 0 {
        return "0".into();
    }
    let neg = v < 0;
    let mut digits = vec![];
    while v != 0 {
        digits.push((b'0' + (v % 10).unsigned_abs() as u8) as char);
        v /= 10;
    }
    if neg {
        digits.push('-');
    }
    digits.iter().rev().collect()
}

/// JSON-number grammar `-?digits(.digits)?([eE][+-]?digits)?`
pub fn is_number_literal(s: &str) -> bool {
    let b = s.as_bytes();
    let mut i = 0;
    if i < b.len() && b[i] == b'-' {
        i += 1;
    }
    let d0 = i;
    while i < b.len() && b[i].is_ascii_digit() {
        i += 1;
    }
    if i == d0 {
        return false;
    }
    if i < b.len() && b[i] == b'.' {
        i += 1;
        let f0 = i;
        while i < b.len() && b[i].is_ascii_digit() {
            i += 1;
        }
        if i == f0 {
            return false;
        }
    }
    if i < b.len() && (b[i] == b'e' || b[i] == b'E') {
        i += 1;
        if i < b.len() && (b[i] == b'+' || b[i] == b'-') {
            i += 1;
        }
        let e0 = i;
        while i < b.len() && b[i].is_ascii_digit() {
            i += 1;
        }
        if i == e0 {
            return false;
        }
    }
    i == b.len()
}

/// The Conjure text of a double: the three words, or a number literal that denotes
/// exactly `v` (bit-identical after parsing).
pub fn double_text_ok(s: &str, v: f64) -> bool {
    if v.is_nan() {
        return s == "NaN";
    }
    if v == f64::INFINITY {
        return s == "Infinity";
    }
    if v == f64::NEG_INFINITY {
        return s == "-Infinity";
    }
    is_number_literal(s) && s.parse::<f64>().map(|p| p.to_bits() == v.to_bits()).unwrap_or(false)
}

/// days since 1970-01-01 of a proleptic Gregorian date (Howard Hinnant's algorithm)
pub fn days_from_civil(y: i64, m: i64, d: i64) -> i64 {
    let y = if m <= 2 { y - 1 } else { y };
    let era = if y >= 0 { y } else { y - 399 } / 400;
    let yoe = y - era * 400;
    let doy = (153 * (if m > 2 { m - 3 } else { m + 9 }) + 2) / 5 + d - 1;
    let doe = yoe * 365 + yoe / 4 - yoe / 100 + doy;
    era * 146097 + doe - 719468
}

/// Parses an RFC 3339 date-time into (unix seconds, nanos, leap) — leap second keeps
/// sec = 59 and reports `leap = true`. None if the text is not RFC 3339.
pub fn parse_rfc3339(s: &str) -> Option<(i64, u32, bool)> {
    let b = s.as_bytes();
    if b.len() < 20 {
        return None;
    }
    let num = |r: std::ops::Range<usize>| -> Option<i64> {
        let t = s.get(r)?;
        if !t.is_empty() && t.bytes().all(|c| c.is_ascii_digit()) {
            t.parse().ok()
        } else {
            None
        }
    };
    if b[4] != b'-' || b[7] != b'-' || !(b[10] == b'T' || b[10] == b't') || b[13] != b':' || b[16] != b':' {
        return None;
    }
    let (y, mo, d, h, mi, sec) = (num(0..4)?, num(5..7)?, num(8..10)?, num(11..13)?, num(14..16)?, num(17..19)?);
    if !(1..=12).contains(&mo) || !(1..=31).contains(&d) || h > 23 || mi > 59 || sec > 60 {
        return None;
    }
    let mut i = 19;
    let mut nanos: u64 = 0;
    if b[i] == b'.' {
        i += 1;
        let f0 = i;
        let mut scale = 100_000_000u64;
        while i < b.len() && b[i].is_ascii_digit() {
            if i - f0 < 9 {
                nanos += (b[i] - b'0') as u64 * scale;
                scale /= 10;
            } else if b[i] != b'0' {
                return None;
            }
            i += 1;
        }
        if i == f0 {
            return None;
        }
    }
    let off = &s[i..];
    let offset_secs: i64 = if off == "Z" || off == "z" {
        0
    } else {
        let ob = off.as_bytes();
        if ob.len() != 6 || ob[3] != b':' || !(ob[0] == b'+' || ob[0] == b'-') {
            return None;
        }
        let oh: i64 = off.get(1..3)?.parse().ok()?;
        let om: i64 = off.get(4..6)?.parse().ok()?;
        let v = oh * 3600 + om * 60;
        if ob[0] == b'-' {
            -v
        } else {
            v
        }
    };
    let leap = sec == 60;
    let sec_eff = if leap { 59 } else { sec };
    let secs = days_from_civil(y, mo, d) * 86400 + h * 3600 + mi * 60 + sec_eff - offset_secs;
    Some((secs, nanos as u32, leap))
}

#[cfg(test)]
mod test {
    use super::*;
    #[test]
    fn basics() {
        assert_eq!(base64(b"foobar"), "Zm9vYmFy");
        assert_eq!(base64(b"fo"), "Zm8=");
        assert_eq!(base64(b"f"), "Zg==");
        assert_eq!(uuid(0), "00000000-0000-0000-0000-000000000000");
        assert_eq!(decimal(-120), "-120");
        assert!(double_text_ok("1.5", 1.5));
        assert!(!double_text_ok("inf", f64::INFINITY));
        assert_eq!(parse_rfc3339("1970-01-01T00:00:00Z"), Some((0, 0, false)));
        assert_eq!(parse_rfc3339("2000-03-01T00:00:00.5+01:00"), Some((951865200, 500_000_000, false)));
        assert_eq!(days_from_civil(0, 1, 1), -719528);
    }
}
