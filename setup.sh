#!/bin/sh
# Builds every engine offline from files on disk (path deps on /repo).
set -e
cd "$(dirname "$0")/engines"
export CARGO_NET_OFFLINE=true RUST_BACKTRACE=0
export CARGO_TARGET_DIR=/verif/target
cargo build --release --offline --workspace
