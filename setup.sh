#!/bin/sh
# Builds every engine offline from files on disk (path deps on /repo), and the getrandom shim.
set -e
cd "$(dirname "$0")/engines"
export CARGO_NET_OFFLINE=true RUST_BACKTRACE=0
export CARGO_TARGET_DIR=/verif/target
cargo build --release --offline --workspace
mkdir -p /verif/target/shim
gcc -shared -fPIC -O2 -o /verif/target/shim/getrandom_shim.so shim/getrandom_shim.c
