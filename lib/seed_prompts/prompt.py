import sys
pid=sys.argv[1]
prop=open('/tmp/seed/%s-out/property.txt'%pid).read()
print(f"""You are helping evaluate a verification effort by playing the role of a developer who introduces a subtle regression into the Rust project palantir/conjure-rust (Conjure IR-to-Rust code generator plus runtime crates: conjure-object, conjure-serde, conjure-error, conjure-http, conjure-macros, conjure-codegen, conjure-rust CLI, conjure-test).

Your own private git worktree of the project is at /tmp/seed/{pid} (detached HEAD of the pinned commit). Work ONLY inside /tmp/seed/{pid} and write your deliverables to /tmp/seed/{pid}-out/. Do NOT read, write or run anything under /repo or /verif, and do not look at other directories under /tmp/seed. The sandbox has no network: always pass --offline to cargo (a Cargo.lock is already in the worktree). Use a private build directory: export CARGO_TARGET_DIR=/tmp/seed/{pid}/target. Limit build parallelism with `-j 4` because other jobs share the machine.

The property the project is supposed to satisfy:

---
{prop}
---

Task: produce TWO different, independent source changes to the project (patch A and patch B; different mechanisms / code locations), each of which
  1. still compiles (whole workspace),
  2. still passes the project's existing test suite unchanged: run `cd /tmp/seed/{pid} && cargo nextest run --workspace --no-fail-fast --offline -j 4` (112 tests; all must pass with your change applied; do not edit or delete any existing test),
  3. BREAKS the property above for some input / configuration / sequence, and
  4. is realistic and subtle: the kind of slip a maintainer could make in a refactor or 'optimisation' (an off-by-one, a dropped re-wrap, a wrong branch for one shape, a check applied on one path but not its twin, state shared that should not be, a condition that is right for common inputs but wrong for an unusual one). Prefer changes that need something specific to manifest (an unusual input, a particular nesting or combination, a multi-step sequence, two cooperating sites that each look fine alone) rather than ones that ordinary use would expose at once. Do not simply delete a whole feature, add a panic, or special-case a magic constant input.

For each patch also write a demonstration: a small Rust test or program (for example an extra #[test] file or a tiny scratch crate with path dependencies on the worktree's crates, kept OUTSIDE the patch itself) that FAILS with the change applied and PASSES on the unmodified tree. Actually run it both ways and record the commands and outcomes.

Read the relevant source first (start from the top-level README and the crates the property talks about). Take the time to understand the mechanism you are going to break.

Deliverables (exactly these files):
  /tmp/seed/{pid}-out/A/patch.diff   - output of `git diff` in the worktree for change A only (source changes only, no demo, no Cargo.lock, no target dir)
  /tmp/seed/{pid}-out/A/demo/        - the demonstration (source files + a README.md or run.sh with the exact commands)
  /tmp/seed/{pid}-out/A/meta.json    - {{"property": "{pid}", "summary": "...what was changed...", "needs_to_manifest": "...the specific input/sequence/config that exposes it...", "suite": "112 passed", "demo_without_patch": "pass", "demo_with_patch": "fail", "commands": ["..."]}}
  and the same three under /tmp/seed/{pid}-out/B/.
After producing patch A, run `git -C /tmp/seed/{pid} checkout -- .` (and remove any untracked files you added inside the worktree) before starting patch B, so each patch.diff applies alone to a clean tree. Leave the worktree clean (no modifications) when you finish, but keep /tmp/seed/{pid}/target if you like. Verify at the end that each patch.diff applies to a clean tree with `git apply --check`.

In your final message, give a 5-line summary per patch: what it changes, what input exposes it, and the verified suite/demo results.""")
