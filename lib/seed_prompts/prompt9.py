import sys, json, subprocess
pid=sys.argv[1]
prop=None
for l in open('/verif/properties.jsonl'):
    d=json.loads(l)
    if d['id']==pid: prop=d
import os
os.makedirs('/tmp/seed/%s-out'%pid, exist_ok=True)
text="%s\n\n%s\n\nHolds for: %s" % (prop['title'], prop['statement'], prop['quantifier']['text'])
open('/tmp/seed/%s-out/property.txt'%pid,'w').write(text)
base=subprocess.run(['python3','/tmp/seed/prompt_one.py',pid],capture_output=True,text=True).stdout
prev=[]
for v in 'ABCDEFGHIJKLMNOP':
    try:
        m=json.load(open('/verif/seeded/%s-%s/meta.json'%(pid,v))); prev.append(m.get('summary','').replace('\n',' ')[:230])
    except Exception: pass
extra="\n\nSixteen regressions of this property have already been collected by earlier developers; do NOT repeat their mechanisms or code sites. Look for something of a different KIND than all of them — prefer a rarely exercised public entry point of the same property (a reader / writer / mut-slice / pretty-printing / builder / conversion / Display-FromStr path, a custom encoding or registry, a trait impl for a wrapper type), a multi-step sequence or state carried between calls, two cooperating sites that each look fine alone, or an interaction of two features (e.g. a flag with an alias, an optional inside a collection inside a union): a different crate or module than they touched, a path they left alone (blocking vs async twin, JSON vs Smile, client vs server side, generated code vs hand-written macro use, by-value vs by-reference, a different configuration flag, an alias / optional / collection / external-type special case, a cache or ordering, a size or length boundary, an unusual but valid input class, a failure path). The earlier ones were:\n"+"\n".join(" - "+p for p in prev)+"\n"
print(base+extra)
