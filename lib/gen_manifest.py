#!/usr/bin/env python3
"""Regenerates /verif/MANIFEST.json from lib/registry.py + lib/manifest_static.json."""
import json
import os
import sys

ROOT = os.path.dirname(os.path.dirname(os.path.abspath(__file__)))
sys.path.insert(0, os.path.join(ROOT, "lib"))
from registry import PROPERTIES  # noqa: E402

static = json.load(open(os.path.join(ROOT, "lib", "manifest_static.json")))
checks = []
for pid in sorted(PROPERTIES):
    s = PROPERTIES[pid]
    checks.append({
        "property_id": pid,
        "quick_cmd": "./check %s --tier quick" % pid,
        "thorough_cmd": "./check %s --tier thorough" % pid,
        "evidence_file": "evidence/%s.json" % pid,
        "replay_cmd_template": "./check %s --replay {path}" % pid,
        "engine": s["engine"],
        "level_claimed": {"category": s["level"], "text": s["level_text"], "design_ref": s["design_ref"]},
        "level_note": s["level_note"],
        "technique": s["technique"],
    })
all_ids = [json.loads(l)["id"] for l in open(os.path.join(ROOT, "properties.jsonl"))]
na = [x for x in static.pop("not_applicable") if x["property_id"] not in PROPERTIES]
listed = {x["property_id"] for x in na}
for pid in all_ids:
    if pid not in PROPERTIES and pid not in listed:
        na.append({"property_id": pid, "reason": "check not built yet (planned in DESIGN.md §3); not claimed until its engine exists and its seeded changes fire"})
na.sort(key=lambda x: x["property_id"])
manifest = dict(static)
manifest["checks"] = checks
manifest["not_applicable"] = na
json.dump(manifest, open(os.path.join(ROOT, "MANIFEST.json"), "w"), indent=1)
print("MANIFEST.json: %d checks, %d not_applicable" % (len(checks), len(na)))
