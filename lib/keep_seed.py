#!/usr/bin/env python3
"""usage: lib/keep_seed.py <PID> <A|B> <detected: yes|no|partial> <note> [<label>]
Copies a confirmed seeded change from /tmp/seed/<PID>-out/<V> into /verif/seeded/<PID>-<V>/."""
import json, os, shutil, subprocess, sys
pid, v, detected, note = sys.argv[1:5]
label = sys.argv[5] if len(sys.argv) > 5 else v  # directory suffix when A/B are taken by an earlier round
src = "/tmp/seed/%s-out/%s" % (pid, v)
dst = "/verif/seeded/%s-%s" % (pid, label)
if os.path.exists(dst):
    shutil.rmtree(dst)
os.makedirs(dst)
shutil.copy(src + "/patch.diff", dst + "/patch.diff")
shutil.copytree(src + "/demo", dst + "/demo", ignore=shutil.ignore_patterns("target", "Cargo.lock", "*.rlib"))
meta = json.load(open(src + "/meta.json"))
confirm = subprocess.run(["/verif/lib/confirm_seed.sh", pid, v], stdout=subprocess.PIPE, text=True).stdout
meta["breaks_property"] = pid
meta["confirmed_by_me"] = confirm.strip().splitlines()
meta["check_result"] = {"detected": detected, "note": note,
                        "how_run": "git -C /repo apply seeded/%s-%s/patch.diff; ./check %s --tier quick; git -C /repo checkout -- . && git -C /repo clean -fdq" % (pid, label, pid)}
meta["origin"] = "independent sub-agent given only the property text and a scratch worktree (/tmp/seed/%s); demo paths refer to that worktree" % pid
json.dump(meta, open(dst + "/meta.json", "w"), indent=1)
print("kept", dst)
