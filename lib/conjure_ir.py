"""Tiny constructors for Conjure IR (version 1) documents, used by the E2/E3/E5 enumerators.
Independent of the generator's own `types/` module."""

PRIMS = ["STRING", "DATETIME", "INTEGER", "DOUBLE", "SAFELONG", "BINARY", "ANY", "BOOLEAN", "UUID", "RID", "BEARERTOKEN"]


def prim(p):
    return {"type": "primitive", "primitive": p.upper()}


def opt(t):
    return {"type": "optional", "optional": {"itemType": t}}


def lst(t):
    return {"type": "list", "list": {"itemType": t}}


def st(t):
    return {"type": "set", "set": {"itemType": t}}


def mp(k, v):
    return {"type": "map", "map": {"keyType": k, "valueType": v}}


def ref(name, package="com.verif"):
    return {"type": "reference", "reference": {"name": name, "package": package}}


def external(name, package, fallback):
    return {"type": "external", "external": {"externalReference": {"name": name, "package": package}, "fallback": fallback}}


SAFE_MARKER = external("Safe", "com.palantir.logsafe", prim("ANY"))


def tname(name, package="com.verif"):
    return {"name": name, "package": package}


def field(name, t, safety=None, docs=None, deprecated=None):
    f = {"fieldName": name, "type": t}
    if safety:
        f["safety"] = safety
    if docs:
        f["docs"] = docs
    if deprecated:
        f["deprecated"] = deprecated
    return f


def obj(name, fields, package="com.verif", docs=None):
    o = {"typeName": tname(name, package), "fields": fields}
    if docs:
        o["docs"] = docs
    return {"type": "object", "object": o}


def union(name, fields, package="com.verif"):
    return {"type": "union", "union": {"typeName": tname(name, package), "union": fields}}


def enum(name, values, package="com.verif"):
    return {"type": "enum", "enum": {"typeName": tname(name, package), "values": [{"value": v} for v in values]}}


def alias(name, t, package="com.verif", safety=None):
    a = {"typeName": tname(name, package), "alias": t}
    if safety:
        a["safety"] = safety
    return {"type": "alias", "alias": a}


def error(name, namespace, code, safe_args, unsafe_args, package="com.verif"):
    return {"errorName": tname(name, package), "namespace": namespace, "code": code, "safeArgs": safe_args, "unsafeArgs": unsafe_args}


def arg(name, t, kind, param_id=None, safety=None, markers=None, tags=None):
    if kind == "body":
        pt = {"type": "body", "body": {}}
    elif kind == "path":
        pt = {"type": "path", "path": {}}
    elif kind == "query":
        pt = {"type": "query", "query": {"paramId": param_id or name}}
    elif kind == "header":
        pt = {"type": "header", "header": {"paramId": param_id or name}}
    else:
        raise ValueError(kind)
    a = {"argName": name, "type": t, "paramType": pt, "markers": markers or [], "tags": tags or []}
    if safety:
        a["safety"] = safety
    return a


def endpoint(name, method, path, args=(), returns=None, auth=None, tags=None, markers=None, docs=None, deprecated=None):
    e = {"endpointName": name, "httpMethod": method, "httpPath": path, "args": list(args), "markers": markers or [], "tags": tags or []}
    if returns is not None:
        e["returns"] = returns
    if auth == "header":
        e["auth"] = {"type": "header", "header": {}}
    elif auth:
        e["auth"] = {"type": "cookie", "cookie": {"cookieName": auth}}
    if docs:
        e["docs"] = docs
    if deprecated:
        e["deprecated"] = deprecated
    return e


def service(name, endpoints, package="com.verif", docs=None):
    s = {"serviceName": tname(name, package), "endpoints": endpoints}
    if docs:
        s["docs"] = docs
    return s


def ir(types=(), services=(), errors=()):
    return {"version": 1, "errors": list(errors), "types": list(types), "services": list(services), "extensions": {}}
