"""Which engine decides which property. MANIFEST.json is generated from this table
(lib/gen_manifest.py) so the two cannot drift."""

PROPERTIES = {}


def reg(pid, **kw):
    PROPERTIES[pid] = kw


reg("C16",
    packages=["sweeps"], bin="sweeps", level="exploration", engine="E4 sweeps",
    technique="bounded exhaustive enumeration of strings through every entry path of the real code, judged by a hand-written recogniser (reference model)",
    design_ref="DESIGN.md §3 C16",
    explanation="every string over a boundary alphabet up to a length bound, every rid-like symbol word and template x component product, and every component 4-tuple is run through all 8 entry paths of the real types and compared with DFAs written from the specification grammar",
    level_text="Exhaustive exploration of a closed, finite string space (all strings up to the bound over an alphabet with one representative per character class and every class boundary) on the real parsing/deserialization entry points, against an independent recogniser. Exact validation is a per-string predicate with a tiny automaton, so small-scope exhaustiveness over class representatives is the right strength.",
    level_note="Trusted: the hand-written recognisers (40 lines, from the Conjure spec grammar); serde_json/serde_smile for rendering the probe documents. Strings longer than the bound and characters outside the alphabet are not covered.")
