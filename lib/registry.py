"""Which engine decides which property. MANIFEST.json is generated from this table
(lib/gen_manifest.py) so the two cannot drift."""

PROPERTIES = {}


def reg(pid, **kw):
    PROPERTIES[pid] = kw


reg("C16",
    packages=["sweeps", "httpdirect"], level="exploration", engine="E4 sweeps + E3a httpdirect",
    parts=[
        {"packages": ["sweeps"], "bin": "sweeps"},
        {"packages": ["httpdirect"], "bin": "httpdirect"},
    ],
    technique="bounded exhaustive enumeration of strings through every entry path of the real code, judged by a hand-written recogniser (reference model)",
    design_ref="DESIGN.md §3 C16",
    explanation="every string over a boundary alphabet up to a length bound, every rid-like symbol word and template x component product, and every component 4-tuple is run through all 8 entry paths of the real types and compared with DFAs written from the specification grammar; dotted components whose head / tail is a valid neighbour component; HTTP entry paths (part 1): every string over a 16-symbol alphabet up to the length bound as Authorization / cookie credential and as raw query / path / header parameter, rid component products likewise, valid values through the client encoders and back",
    level_text="Exhaustive exploration of a closed, finite string space (all strings up to the bound over an alphabet with one representative per character class and every class boundary) on the real parsing/deserialization entry points, against an independent recogniser. Exact validation is a per-string predicate with a tiny automaton, so small-scope exhaustiveness over class representatives is the right strength.",
    level_note="Trusted: the hand-written recognisers (40 lines, from the Conjure spec grammar); serde_json/serde_smile for rendering the probe documents. Strings longer than the bound and characters outside the alphabet are not covered.")

reg("C15",
    packages=["sweeps", "httpdirect"], level="exploration", engine="E4 sweeps + E3a httpdirect",
    parts=[
        {"packages": ["sweeps"], "bin": "sweeps"},
        {"packages": ["httpdirect"], "bin": "httpdirect"},
    ],
    technique="bounded exhaustive enumeration of integer neighbourhoods through every construction/parsing/deserialization route of the real code, judged by the range predicate",
    design_ref="DESIGN.md §3 C15",
    explanation="every integer within a radius of every boundary centre (0, ±(2^53-1), ±2^k, ±10^k, top of u128) is pushed through ~50 routes (new, TryFrom x6, From x6, FromStr, PLAIN, JSON client/server from str/slice/reader, map keys, Smile, Any in each integer variant, keys behind hand-written newtype / Option key types) and judged by |v| <= 2^53-1; part 1: the same boundary integers as JSON request and response bodies in every chunking within the deviation bound (a prefix of a number is a number), blocking and async",
    level_text="Exhaustive exploration of every boundary neighbourhood (the code is two comparisons plus width conversions, monotone between the centres) through every route on the real code.",
    level_note="Trusted: serde_json/serde_smile to render probe documents; Rust integer formatting. Values further than the radius from every centre are assumed to behave like their neighbours.")

reg("C12",
    packages=["sweeps", "cgorder", "httpdirect"], level="exploration", engine="E4 sweeps + E2 genharness + E3a httpdirect",
    parts=[
        {"packages": ["sweeps"], "bin": "sweeps"},
        {"packages": ["cgorder"], "cmd": ["python3", "engines/e2/e2.py"]},
        {"packages": ["httpdirect"], "bin": "httpdirect"},
    ],
    technique="bounded exhaustive enumeration of value grids/ranges through to_plain/from_plain of the real code, judged by round-trip identity and an independent PLAIN spelling model",
    design_ref="DESIGN.md §3 C12",
    explanation="per PLAIN-capable runtime type every value of a grid or full range (thorough: all 2^32 i32, all 2^32 f32-widened doubles) is formatted and parsed back; text is compared with independent encoders (Base64, uuid, decimal) or grammar checkers (number, RFC 3339); by-reference spelling (&T, &&T); DoubleKey; wire part (part 2): value grids of every PLAIN type through the real client encoders (path / query / optional / list / set / header) and the real server decoders",
    level_text="Exhaustive exploration of complete ranges where feasible (bool, i32, byte strings <= 2, f32-widened doubles) and of class-boundary grids elsewhere, on the real formatting/parsing code against an independent spelling model.",
    level_note="Trusted: chrono's field constructors to build instants; std float parsing as the judge of 'same number'. Part 1 runs the compiled generated enums and aliases of PLAIN primitives (value -> to_plain -> from_plain, spelling model).")

reg("C01",
    packages=["shapes"], bin="shapes", level="model_checking", engine="E1 shapes",
    technique="explicit-state enumeration of (type shape, value) states up to a depth bound, each executed on the real serializers/deserializers (all entry points x sources) and judged by an independent wire model",
    design_ref="DESIGN.md §3 C01",
    explanation="all shapes of the Conjure type grammar up to the depth bound x value sets; each state is serialized through 4 JSON + 2 Smile entry points and deserialized through client/server x str/slice/reader(short reads)/mut-slice; JSON and Smile trees read back with plain serde_json/serde_smile are compared with the reference encoding; a size dimension (binary / string / collection lengths around every power of two and 3-byte block boundary)",
    level_text="Bounded exhaustive exploration of the shape grammar (every re-wrapping point of the wrappers is reached in every nesting up to the bound) executed on the implementation itself, with a reference model of the wire encoding as oracle. There is no separate model to bind: every state is run on the real code.",
    level_note="Trusted: serde_json / serde_smile as readers of the produced bytes; the dynamic (Shape, Val) serde implementation (bound to derive/std impls by the static-twin conformance check); the reference encoders in vcommon::cmodel.")

reg("C05",
    packages=["shapes", "cgorder"], level="model_checking", engine="E1 shapes + E2 genharness",
    parts=[
        {"packages": ["shapes"], "bin": "shapes"},
        {"packages": ["cgorder"], "cmd": ["python3", "engines/e2/e2.py"]},
    ],
    technique="explicit-state enumeration of (shape, value, object node, position, injected value) states, each executed on the real client/server deserializers (JSON+Smile, all sources)",
    design_ref="DESIGN.md §3 C05",
    explanation="every shape with an object node up to the depth bound; an unknown field holding each of 12 JSON values is inserted first/between/last into each object node (one and two injections); the document is read by every client and server path, dynamic structs and derive-based twins; serde enum payloads as containers; generated part: an undeclared member in every object node of the valid documents of every generated type under every configuration, JSON and Smile",
    level_text="Bounded exhaustive exploration of nesting contexts x injection points on the implementation: every container path below deserialize_struct (seq, map value, option, newtype/alias, nested struct) is reached at every depth up to the bound, for JSON and Smile and every input source.",
    level_note="Trusted: the Conjure serializers to render the injected documents (guarded: a case is only judged if its un-injected document round-trips); derive-based twins bind the dynamic struct to serde derive. Part 1 injects an undeclared member into every object node of the valid documents of every generated type (objects, unions, aliases; every configuration incl. exhaustive) and reads them with the compiled generated code, JSON and Smile; the client value is compared with the one read from the document without the member.")

reg("C13",
    packages=["shapes"], bin="shapes", level="model_checking", engine="E1 shapes",
    technique="explicit-state enumeration of (shape, value) states, of JSON documents of a grammar, and of (document, shape) pairs, each executed on the real Any serializer/deserializer and compared with direct (non-Any) serialization/parsing",
    design_ref="DESIGN.md §3 C13",
    explanation="A: value -> Any -> value and json(Any(v)) == json(v) for every (shape, value) incl. all integer widths, f32, char, unit, tuples, newtype/tuple structs, enums with all variant kinds, maps keyed by every scalar kind; B: every JSON document of a grammar to depth 3 -> Any -> JSON equivalent; C: every (document, shape) pair that parses directly must give the same value through Any; derive newtypes as map keys, types that read themselves through deserialize_any (untagged / tagged / flattened), value -> Smile -> Any -> value",
    level_text="Bounded exhaustive exploration of the value/shape grammar and of a JSON document grammar against a differential oracle (direct serialization / direct parsing by the same Conjure JSON code path), executed on the implementation.",
    level_note="Trusted: conjure-serde's direct JSON path as the reference for 'same document' / 'same coercions' (its own correctness is C01's business); plain serde_json::Value equality for document equivalence. JSON integers beyond 64 bits are outside the statement.")

reg("C17",
    packages=["shapes", "cgorder"], level="model_checking", engine="E1 shapes + E2 genharness",
    parts=[
        {"packages": ["shapes"], "bin": "shapes"},
        {"packages": ["cgorder"], "cmd": ["python3", "engines/e2/e2.py"]},
    ],
    technique="explicit-state enumeration of error definitions x parameter values, each executed on the real encode / Error::service* code and judged by a model of the encoding and of the safe/unsafe partition",
    design_ref="DESIGN.md §3 C17",
    explanation="a dynamic ErrorType+Serialize value: one parameter of every shape x value (safe/unsafe, null-or-skipped); every definition over 6 parameter names x {undefined, safe, unsafe} x {scalar, list, absent optional}; every error code; each through encode, with_instance_id, Error::service, service_safe, propagated_service, propagated_service_safe; by-reference constructions (&T, &&T); generated part: ~60 generated error definitions",
    level_text="Bounded exhaustive exploration of error definitions (all safe/unsafe/omitted interleavings in sorted-name order up to 6 names) and of parameter shapes/values, executed on the implementation against a reference model of the encoding rules and of the partition.",
    level_note="Trusted: the dynamic (Shape, Val) Serialize impl (bound to derive by the C01 twin conformance); Rust's f64 parser as judge of 'parses back to the same number'. Part 1 generates ~60 error definitions (every safe x unsafe partition size, every argument type, every code, keyword / camelCase names), compiles them and drives the generated types through ErrorType, encode and Error::service*.")

reg("C11",
    packages=["httpdirect"], bin="httpdirect", level="model_checking", engine="E3a httpdirect",
    technique="explicit-state enumeration of (Accept header list, ordered encoding registry) and (Content-Type, registry) states, each executed on the real negotiation code and compared with a declarative specification of permitted/optimal choices",
    design_ref="DESIGN.md §3 C11",
    explanation="every Accept list of <= n items over 7 ranges x 8 q spellings + an unparsable item, rendered as one or two header lines, x all 15 ordered registries of json/smile/text-plain; reference model = the statement's declarative predicate (permitted, no better permitted, range-order then registration-order tie-break); wildcard ranges with parameters; 3-item lists over a reduced alphabet in quick",
    level_text="Explicit-state model checking with 100% conformance: every state of the bounded header x registry space is run on ConjureRuntime and its answer compared with a specification-level oracle that is not the implementation's sort-and-select algorithm.",
    level_note="Trusted: the declarative oracle (about 80 lines); http::HeaderValue for carrying the header text. Where the statement is silent (no parsable range, malformed q, equal specificity with different q) both readings are accepted and counted separately.")

reg("C07",
    packages=["httpdirect", "httploop"], level="exploration", engine="E3a httpdirect + E3b httploop",
    parts=[
        {"packages": ["httpdirect"], "bin": "httpdirect"},
        {"packages": ["httploop"], "bin": "httploop"},
    ],
    technique="bounded exhaustive enumeration of parameter values x positions x templates through the real URI builder and server-side decoders, judged by an independent RFC 3986 tokenizer/decoder",
    design_ref="DESIGN.md §3 C07",
    explanation="every ASCII code point, UTF-8 boundary, look-alike string and reserved-character pair in every parameter position (and pairs of positions) of 7 path/query templates, plus URI lengths around the 65534 limit; each built URI is re-parsed, tokenized by a hand-written RFC 3986 model and decoded by path_param / parse_query_params / query_param; macro-client templates with literals and query keys of every encode-set level; every sequence of up to three optional / list / set query pushes; a 42-pair query; part 1: the URIs of the generated blocking / async clients (path arguments declared out of template order, list / set / optional query arguments) against the IR templates, and a macro client / macro server pair whose query names hold reserved characters",
    level_text="Exhaustive exploration over per-character alphabets in every position: URI structure preservation is a per-byte property of the encode set, so every ASCII byte in every position plus all pairs over the reserved alphabet decides it within the bound.",
    level_note="Trusted: the hand-written tokenizer/decoder; http::Uri for re-parsing. The macro client's own copy of the encode set (literals and query keys at expansion time) is covered by the loopback part when built.")

reg("C06",
    packages=["httpdirect", "httploop"], level="fault_enumeration", engine="E3a httpdirect + E3b httploop",
    parts=[
        {"packages": ["httpdirect"], "bin": "httpdirect"},
        {"packages": ["httploop"], "bin": "httploop"},
    ],
    technique="deviation-bounded exhaustive exploration of body-stream histories (chunk splits, empty chunks, pending polls, stream errors) x bodies x Content-Types x size limits on the real request deserializers, judged by a reference acceptance predicate",
    design_ref="DESIGN.md §3 C06, §2.4",
    explanation="per parameter type: valid documents, every truncation, 16 trailers, doubled documents, all JSON symbol strings up to the bound, Smile renderings; every stream history within the deviation bound plus uniform 1/2/3-byte chunkings; every Content-Type of an 11-value alphabet; limits 0/1/4/8/16/default; StdRequestDeserializer, OptionalRequestDeserializer, FromRequestDeserializer, BinaryRequestDeserializer; blocking and async; undeclared-member bodies and neighbouring-kind documents judged by rules independent of the deserializer under test; field-less objects; loopback part with the size-limit tag (1 kb / 2Ki boundaries, all 16 unit spellings read back from the generated code)",
    level_text="Fault enumeration over environment answers: every history of the body stream with at most k deviations from 'whole body in one chunk' (and every position of a stream error) is executed on the real deserializers; acceptance is compared with an independent 'exactly one document within the limit' predicate.",
    level_note="Trusted: plain serde_json/serde_smile as judges of 'one well-formed document'; conjure-serde's server deserializer for the value (C01/C02/C05's business). Part 1 (loopback) sends raw requests to the generated endpoints (incl. the size-limit tag) and checks the handler runs exactly once iff the body is valid.")

reg("C18",
    packages=["httpdirect", "httploop"], level="fault_enumeration", engine="E3a httpdirect + E3b httploop",
    parts=[
        {"packages": ["httpdirect"], "bin": "httpdirect"},
        {"packages": ["httploop"], "bin": "httploop"},
    ],
    technique="deviation-bounded exhaustive exploration of response-stream histories x status x Content-Type x body on the real client response decoders (blocking and async), judged by a reference 'complete, correctly typed document' predicate",
    design_ref="DESIGN.md §3 C18, §2.4",
    explanation="per return class (value, optional, list, set, map, unit, binary, optional binary): valid documents with unknown fields, every truncation, trailers, doubled documents; statuses 200/201/204; 11 Content-Type situations; every stream history within the deviation bound plus uniform chunkings; decode_*_response and ConjureResponseDeserializer; blocking and async verdicts must agree; 'one document' and scalar typing judged independently of the client deserializer, neighbouring-kind documents; loopback part over the generated blocking / async clients",
    level_text="Fault enumeration over environment answers: every history of the response stream with at most k deviations (including a stream error at every position) is executed on the real decoders; a value may only come from a 204 (empty value) or from a complete document under the requested Content-Type.",
    level_note="Trusted: conjure-serde's client deserializer (client_from_slice) as the reference for 'one well-formed document of the return type'. Content-Types that are the requested type in another spelling are treated as unclear (error or the correct value accepted). Part 1 (loopback) drives the generated blocking and async client methods over a scripted transport.")

reg("C04",
    packages=["httploop"], bin="httploop", level="exploration", engine="E3b httploop",
    technique="bounded exhaustive enumeration of argument and return values over per-position alphabets through the real generated clients and endpoints (blocking and async) joined by a loopback transport, with an identity oracle (handler invoked once with equal arguments; client gets the handler's value)",
    design_ref="DESIGN.md §3 C04",
    explanation="a 'universal' service (every parameter kind x type class, header and cookie auth, optional/alias/collection/union/any/binary bodies and returns, size-limited body, context) is generated from ir/http.json at build time; every ASCII code point, UTF-8 boundary and reserved-character pair in every string position, pairs of positions, one-hot scalar alphabets, collections of 0..3, under three body chunkings; the router binds raw path segments as the PathParams contract documents; a macro part (hand-written conjure_client traits against conjure_endpoints traits: custom encoders / decoders, optional and sequence parameters, renamed path parameters, request context, per-endpoint body limit); a Smile leg (Smile and JSON bodies x 9 Accept headers: the response is in the negotiated encoding); a chunking with an empty chunk after every chunk",
    level_text="Exhaustive exploration over per-position alphabets with an identity oracle, executed on the generated code of the current tree (regenerated by build.rs) and the runtime crates; both flavours.",
    level_note="Trusted: the loopback router (60 lines; routing is outside the repository); conjure-serde JSON text as the canonical rendering on both sides. Macro-derived clients/endpoints with custom encoders are covered by the macro part of this engine when built; Smile negotiation is exercised by C11 and the Smile replay.")

reg("C19",
    packages=["httploop"], bin="httploop", level="exploration", engine="E3b httploop",
    technique="bounded exhaustive enumeration of per-argument corruption states (valid/absent/repeated/unparsable/invalid text/auth faults) over all arguments of generated and macro-derived endpoints, executed on the real endpoints (blocking and async), judged by the error-code / param-name rule",
    design_ref="DESIGN.md §3 C19",
    explanation="8 endpoints of the generated universal service (argument names fooBar, type, strSet, xOptInt ... whose Rust spelling differs from the declared name) and a hand-written #[conjure_endpoints] service with and without log_as; every assignment of states with at most k deviating arguments plus every subset of arguments corrupted at once; raw requests go straight to the routed endpoint; auth headers shorter than their prefix",
    level_text="Exhaustive exploration of the corruption-assignment space per endpoint on the real generated/macro code: decoding failures are per-argument and order-dependent, so all subsets plus all fault kinds per argument (pairs/triples) cover the interactions within the bound.",
    level_note="Trusted: the raw request builder and the loopback router. When several arguments are undecodable any of their declared names is accepted. Lossy decoding of non-UTF-8 escapes in string path parameters is not judged.")

reg("C09",
    packages=["httploop"], bin="httploop", level="exploration", engine="E3b httploop",
    technique="bounded exhaustive enumeration of requests (per-argument states with taint-carrying data) against generated and macro-derived endpoints, with a taint-search oracle over every safe-to-log channel",
    design_ref="DESIGN.md §3 C09",
    explanation="the C19 request space (every assignment of valid/absent/repeated/unparsable/invalid-text/auth-fault states with at most k deviations, all subsets) over endpoints with every mix of safe and non-safe path/query/header/body arguments and header/cookie auth; each datum embeds a position-specific taint token; SafeParams, Error::safe_params and safe cause messages are searched (raw, base64, lower-case); safe arguments must appear under their declared names; BearerToken Debug must be one constant; non-interference: with only the text of an undecodable non-safe argument varied (4 variants) no safe channel may change; safe arguments decoded before a failure must be recorded",
    level_text="Exhaustive exploration of the request-state space with an information-flow (taint search) oracle on the real endpoint code, blocking and async.",
    level_note="Trusted: the taint tokens are distinctive strings no constant message contains; a leak through a transformation other than identity/base64/case-folding would be missed. Generated `safe` markers themselves are C08's business.")

reg("C08",
    packages=["cgorder"], bin="cgorder", level="model_checking", engine="E5 cgorder",
    technique="explicit-state enumeration of type graphs x evaluation orders, each run through the real generator, with the generated `safe` markers compared against a greatest-fixed-point reference model and across orders",
    design_ref="DESIGN.md §3 C08",
    explanation="all graphs of 2 named types (alias / object with 0-2 members / union with 1-2 members over declared and undeclared leaves and references through optional/list/set/map) and of 3 types forming cycles, x every permutation of the endpoints that first touch them; hundreds of disjointly named copies are packed into one IR per generator run; markers are read back from the emitted sync and async server traits with syn; plus the argument-level rule (explicit safety, legacy marker, tag) over 14 argument types x 10 declarations; map<enum,T> members; tag and marker look-alikes in the argument table",
    level_text="Explicit-state model checking of the log-safety computation: every state (graph, order) of the bounded space is executed on the real generator and compared with a specification-level model (boolean greatest fixed point), with order-independence checked as a second oracle.",
    level_note="Trusted: the fixed-point model (30 lines); syn to read the generated traits. Graphs with more than 3 types or more than 2 members per type are assumed to behave like compositions of the enumerated ones.")

reg("C20",
    packages=["cgorder"], bin="cgorder", level="exploration", engine="E5 cgorder",
    technique="exhaustive enumeration of (program, configuration, entry point, owned hash seed) with every generation in a fresh process/directory under an LD_PRELOAD getrandom shim; byte-wise tree comparison and strace file-activity oracle",
    design_ref="DESIGN.md §3 C20",
    explanation="the repository's IR files, the universal HTTP IR and a multi-package IR with errors/services/extensions; flag configurations (exhaustive, serializeEmptyCollections, stripPrefix, crate output with product/crate versions); library Config vs `conjure-rust generate`; S owned hash seeds; different output path and working directory per run; first run of each traced with strace; odd package names (path separators, dot-dot, absolute path) with file activity judged for failed generations too; every run reads its own copy of the definition through a different (absolute or relative) path",
    level_text="Exhaustive over the owned nondeterminism that exists (the process hash seed, made a harness choice by the shim) within the seed set, and over the configuration product; replayable because the seed is owned.",
    level_note="Trusted: the LD_PRELOAD shim reaches std's RandomState through libc getrandom (verified: the probe sees different HashMap orders per seed); strace for file activity. Seeds are not iteration orders: large tables are only sampled by the seed set, and the evidence says how many distinct orders the probe saw.")

reg("C02",
    packages=["cgorder"], cmd=["python3", "engines/e2/e2.py"], level="model_checking", engine="E2 genharness",
    technique="explicit-state enumeration of (IR type shape, configuration, JSON document) states: the real generator is run on the enumerated IR, its output compiled against /repo's crates and executed on every document, compared with a reference model of the Conjure wire format",
    design_ref="DESIGN.md §3 C02",
    explanation="one object/union/alias per type shape up to depth 2 (21 leaves incl. references to enum/object/union/aliases/external), recursive and field-count families; per type the model's valid documents and every single-fault variant, all union member sequences <= 3; client and server JSON deserializers of the compiled generated types; configurations default and exhaustive+serializeEmptyCollections (thorough: all four, plus Smile round trips); set members differing only in a list<double> prefix; integers up to 2^64-1 in the fault catalogue; quick runs the two configurations whose flags differ",
    level_text="Explicit-state model checking with a specification-level wire model (validity, canonical form, fault catalogue) as oracle; every state is executed on the code the current tree generates (regenerated and recompiled on every run).",
    level_note="Trusted: the wire model (engines/e2/model.py); rustc/cargo; the probe dispatcher. Inputs on which the specification is silent (null for collections / required any, 1.0 for integers, duplicates, relaxed datetime/uuid spellings) are in neither set.")

reg("C10",
    packages=["cgorder"], cmd=["python3", "engines/e2/e2.py"], level="model_checking", engine="E2 genharness",
    technique="explicit-state enumeration of (enum/union definition, configuration, document) states on the compiled output of the real generator, judged by the round-trip / classification rule of the statement",
    design_ref="DESIGN.md §3 C10",
    explanation="enums with 1/2/3 values and unions with 0/1/2/3 variants (one named `unknown`) plus one union per leaf shape, default and exhaustive configuration; every listed value/variant document, unlisted enum names over [A-Z0-9_] up to the length bound and multi-word names, ill-formed names, unlisted variant names x 17 JSON payloads in both member orders; client, server and `any` paths; the same names / variants rendered as Smile; the emitted Unknown variant must exist exactly in the non-exhaustive configurations",
    level_text="Bounded exhaustive exploration of names and payloads on the generated code of the current tree, with the statement's rule as oracle (unlisted => preserved and classified unknown unless exhaustive; listed => itself; exhaustive => exactly the unlisted rejected).",
    level_note="Trusted: Debug output of the generated types to read the classification (prefix of the unknown variant), JSON equality for 'equivalent document'. An enum value named UNKNOWN and an empty enum are not valid Conjure and are not enumerated.")

reg("C14",
    packages=["sweeps", "cgorder"], level="model_checking", engine="E4 sweeps + E2 genharness",
    parts=[
        {"packages": ["sweeps"], "bin": "sweeps"},
        {"packages": ["cgorder"], "cmd": ["python3", "engines/e2/e2.py"]},
    ],
    technique="exhaustive enumeration of ordered pairs and triples over bounded value sets of the double wrapper, the DoubleOps compositions and the compiled generated types containing doubles, checked against the order / equality / hash laws",
    design_ref="DESIGN.md §3 C14",
    explanation="part 0 (runtime): DoubleKey and DoubleOps over f64 / Option / Vec / BTreeMap compositions through educe-derived structs and a union-like enum built exactly like generated code, with 9 f64 bit patterns incl. three NaNs; part 1 (generated): every generated object / union / alias of the E2 type space that contains a double (directly, in optionals, lists, sets, map keys/values, aliases, nested objects), up to 13 values per type from JSON; all ordered pairs and triples; single-member unions with doubles, unlisted variants in the law documents",
    level_text="Exhaustive checking of the algebraic laws (reflexive, eq <=> cmp Equal, antisymmetric, transitive, NaN greatest, eq => same hash, partial_cmp and operators agree with cmp, set/map lookups, deserialize-twice equality) over every pair and triple of a bounded value set per type, on the real runtime code and on the compiled output of the real generator.",
    level_note="Trusted: the law checker (vcommon::laws); values outside the alphabet behave like their class representative. NaN payload/sign differences are only reachable in the runtime part.")

reg("C03",
    packages=["cgorder"], cmd=["python3", "engines/e2/e2.py"], level="exploration", engine="E2 genharness",
    technique="exhaustive enumeration of IR programs from a grammar (type shapes x positions, names x positions, recursion, packages x stripPrefix, service features, configurations), each run through the real generator and type-checked by rustc against /repo's crates",
    design_ref="DESIGN.md §3 C03",
    explanation="every type shape up to depth 2 as object field / union variant / alias target / error argument / endpoint body and return; PLAIN-capable types as path, query (single/optional/list/set) and header parameters; recursion families; one program per (name, position) for every Rust keyword and every identifier the generated code uses (fields, variants, endpoints, arguments, error arguments, package segments, types, enum values); nested packages x 6 stripPrefix values; service features (auth kinds, request context, binary bodies/returns, size limits, docs with code fences, markers, tags); flag configurations; one full generated crate; one full crate per non-empty subset of {types, errors, services}; externals with every primitive and collection fallback in every position; names the staged-builder derive and the macros emit; regex path parameters; request context next to safe arguments",
    level_text="Exhaustive exploration of a program grammar that under-approximates the Conjure compiler's language: each program is generated in its own process (so a generation failure is attributable) and the emitted module trees are type-checked with cargo check; errors are attributed to the generating IR item through the one-type-per-file layout.",
    level_note="Trusted: rustc/cargo check as the oracle for 'compiles'; only IR known to be valid Conjure is enumerated. Compilation of executed code paths is additionally exercised by the C02/C10/C14 builds and the loopback engine.")
