#!/usr/bin/env python3
"""usage: lib/try_ir.py '<python expression over conjure_ir building an ir(...)>'
Generates the IR with the generator of /repo's current tree (rebuilds cgorder first) and
type-checks the emitted module tree against /repo's crates. Scratch under /verif/work/tryir."""
import os, subprocess, sys, shutil
ROOT = os.path.dirname(os.path.dirname(os.path.abspath(__file__)))
sys.path.insert(0, os.path.join(ROOT, "engines", "e2"))
sys.path.insert(0, os.path.join(ROOT, "lib"))
import harness as H
from conjure_ir import *  # noqa
subprocess.run(["cargo", "build", "--release", "--offline", "-q", "-p", "cgorder"], cwd=os.path.join(ROOT, "engines"), env=dict(os.environ, CARGO_TARGET_DIR=os.path.join(ROOT, "target")), check=True)
doc = eval(sys.argv[1])
root = os.path.join(ROOT, "work", "tryir")
shutil.rmtree(root, ignore_errors=True)
ok, err = H.generate(doc, os.path.join(root, "gen"))
print("generation:", "ok" if ok else "FAILED " + err[-500:])
if ok:
    crate = os.path.join(root, "chk")
    H.write_crate(crate, "tryir", lib_rs='#![allow(warnings)]\n#[path = "%s/mod.rs"]\npub mod g;\n' % os.path.join(root, "gen"))
    p = H.cargo(crate, "check", [], json_messages=True)
    errs = H.compile_errors(p.stdout)
    print("cargo check:", "ok" if p.returncode == 0 else "FAILED")
    for e in errs[:10]:
        print("  ", e[0].split("/gen/")[-1], e[1], e[2][:200])
