#!/bin/sh
# usage: lib/try_mutant.sh <patch.diff> <prop> [<prop>...]   applies patch to /repo, runs quick checks, reverts
patch="$(realpath "$1")"; shift
cd /repo && git apply "$patch" || { echo "PATCH DOES NOT APPLY: $patch"; exit 3; }
cd /verif
for p in "$@"; do
  out=$(./check "$p" --tier ${TIER:-quick} 2>&1); rc=$?
  echo "== $(basename $patch) on $p: exit=$rc"
  echo "$out" | grep -E "VIOLATION|MACHINERY|KNOWN" | head -${LINES_SHOWN:-3}
  echo "$out" | grep -A1 "^VIOLATION" | grep -v "^VIOLATION\|^--" | head -2
done
cd /repo && git checkout -- . && git clean -fdq
