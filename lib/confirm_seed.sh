#!/bin/sh
# usage: lib/confirm_seed.sh <PID> <A|B>   — confirms a seeded change in its scratch worktree:
# suite passes with the patch; demo fails with it and passes without it.
pid=$1; v=$2
wt=/tmp/seed/$pid; out=/tmp/seed/$pid-out/$v
export CARGO_TARGET_DIR=$wt/target RUST_BACKTRACE=0 CARGO_NET_OFFLINE=true
git -C $wt checkout -q -- . ; git -C $wt clean -fdq -e target -e Cargo.lock
git -C $wt apply $out/patch.diff || { echo "CONFIRM $pid/$v: patch does not apply"; exit 1; }
suite=$(cd $wt && cargo nextest run --workspace --no-fail-fast --offline 2>&1 | grep -E "Summary|error(\[|:)" | head -3)
rundemo() {
  # the agent's run.sh is the authoritative command (it may build a binary first); a bare
  # scratch crate is run with cargo test
  # ... unless that script applies / reverts the patch itself (then it cannot show one state)
  if [ -f $out/demo/run.sh ] && { [ ! -f $out/demo/Cargo.toml ] || ! grep -vE "^\s*#" $out/demo/run.sh | grep -qE "git .*(apply|checkout|stash)"; }; then (cd $out/demo && bash ./run.sh 2>&1 | grep -E "^test result|Summary|PASS|FAIL|error(\[|:)|could not compile" | grep -v "ok. 0 passed" | head -6)
  else (cd $out/demo && { [ -f Cargo.lock ] || cp $wt/Cargo.lock . 2>/dev/null; } ; CARGO_TARGET_DIR=$wt/target/demo cargo test --offline 2>&1 | grep -E "^test result|error(\[|:)|could not compile" | grep -v "ok. 0 passed" | head -5); fi
}
demo_with=$(rundemo)
git -C $wt checkout -q -- . ; git -C $wt clean -fdq -e target -e Cargo.lock
demo_without=$(rundemo)
echo "CONFIRM $pid/$v"
echo " suite(with patch): $suite"
echo " demo(with patch): $demo_with"
echo " demo(without patch): $demo_without"
