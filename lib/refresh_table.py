#!/usr/bin/env python3
"""usage: lib/refresh_table.py — rewrites the last column of DESIGN.md §0.3 from evidence/*.json (quick-tier evidence only)"""
import json, re
def human(n):
    if n >= 10_000_000: return "%.1f M" % (n / 1e6)
    if n >= 1_000_000: return "%.1f M" % (n / 1e6)
    if n >= 10_000: return "%d k" % round(n / 1000)
    if n >= 1000: return "%.1f k" % (n / 1000)
    return str(n)
p = "/verif/DESIGN.md"
lines = open(p).read().split("\n")
for i, l in enumerate(lines):
    m = re.match(r"^\| (C\d\d) \| ", l)
    if not m or l.count("|") < 6 or "evaluations |" not in l:
        continue
    e = json.load(open("/verif/evidence/%s.json" % m.group(1)))
    if e.get("tier") != "quick":
        continue
    c = e["coverage"]
    cells = l.rstrip().rstrip("|").split("|")
    cells[-1] = " %s states / %s evaluations " % (human(c["states"]), human(c["evaluations"]))
    lines[i] = "|".join(cells) + "|"
open(p, "w").write("\n".join(lines))
