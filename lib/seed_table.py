#!/usr/bin/env python3
"""usage: lib/seed_table.py <label> [<label>...]   — markdown rows for DESIGN §5.2 from seeded/*/meta.json"""
import glob, json, os, sys
labels = sys.argv[1:]
print("| seed | what it needs in order to manifest | check result |")
print("|---|---|---|")
for d in sorted(glob.glob("/verif/seeded/*")):
    name = os.path.basename(d)
    if name.split("-")[-1] not in labels:
        continue
    m = json.load(open(d + "/meta.json"))
    needs = str(m.get("needs_to_manifest", "")).replace("\n", " ").replace("|", "\\|")[:240]
    cr = m.get("check_result", {})
    note = str(cr.get("note", "")).replace("|", "\\|")
    if not note.startswith("initially missed"):
        note = "caught: " + note
    print("| %s | %s | %s |" % (name, needs, note))
